// syndump: parse Rust source files with syn and print a simplified JSON AST (items, fns, exprs, patterns, macro token
// trees with line numbers).  The abstract interpreter and all rules live in /verif/lib (Python).
// usage: syndump <file.rs>...   -> one JSON object {"files": {path: [items]}}
use proc_macro2::{Delimiter, TokenStream, TokenTree};
use quote::ToTokens;
use std::fmt::Write as _;
use syn::parse::Parser;
use syn::punctuated::Punctuated;
use syn::spanned::Spanned;

#[derive(Clone)]
enum J {
    Null,
    Bool(bool),
    Num(i64),
    Str(String),
    Arr(Vec<J>),
    Obj(Vec<(String, J)>),
}

fn esc(s: &str, o: &mut String) {
    o.push('"');
    for c in s.chars() {
        match c {
            '"' => o.push_str("\\\""),
            '\\' => o.push_str("\\\\"),
            '\n' => o.push_str("\\n"),
            '\r' => o.push_str("\\r"),
            '\t' => o.push_str("\\t"),
            c if (c as u32) < 0x20 => {
                let _ = write!(o, "\\u{:04x}", c as u32);
            }
            c => o.push(c),
        }
    }
    o.push('"');
}

impl J {
    fn write(&self, o: &mut String) {
        match self {
            J::Null => o.push_str("null"),
            J::Bool(b) => o.push_str(if *b { "true" } else { "false" }),
            J::Num(n) => {
                let _ = write!(o, "{}", n);
            }
            J::Str(s) => esc(s, o),
            J::Arr(v) => {
                o.push('[');
                for (i, x) in v.iter().enumerate() {
                    if i > 0 {
                        o.push(',');
                    }
                    x.write(o);
                }
                o.push(']');
            }
            J::Obj(v) => {
                o.push('{');
                for (i, (k, x)) in v.iter().enumerate() {
                    if i > 0 {
                        o.push(',');
                    }
                    esc(k, o);
                    o.push(':');
                    x.write(o);
                }
                o.push('}');
            }
        }
    }
}

fn s(x: impl ToString) -> J {
    J::Str(x.to_string())
}

fn obj(kind: &str, line: usize, mut f: Vec<(&str, J)>) -> J {
    let mut v = vec![("k".to_string(), s(kind)), ("line".to_string(), J::Num(line as i64))];
    for (k, x) in f.drain(..) {
        v.push((k.to_string(), x));
    }
    J::Obj(v)
}

fn line<T: Spanned>(t: &T) -> usize {
    t.span().start().line
}

fn toks<T: ToTokens>(t: &T) -> String {
    t.to_token_stream().to_string()
}

fn path_j(p: &syn::Path) -> J {
    // segments without generic arguments; generic args kept as text
    let segs: Vec<J> = p.segments.iter().map(|sg| s(&sg.ident)).collect();
    let mut generics = Vec::new();
    for sg in p.segments.iter() {
        if !sg.arguments.is_none() {
            generics.push(s(toks(&sg.arguments)));
        }
    }
    J::Obj(vec![("segs".into(), J::Arr(segs)), ("generics".into(), J::Arr(generics))])
}

fn tt_j(ts: TokenStream) -> J {
    let mut out = Vec::new();
    for t in ts {
        match t {
            TokenTree::Ident(i) => out.push(J::Obj(vec![("t".into(), s("i")), ("v".into(), s(&i)), ("line".into(), J::Num(i.span().start().line as i64))])),
            TokenTree::Punct(p) => out.push(J::Obj(vec![
                ("t".into(), s("p")),
                ("v".into(), s(p.as_char())),
                ("joint".into(), J::Bool(matches!(p.spacing(), proc_macro2::Spacing::Joint))),
            ])),
            TokenTree::Literal(l) => out.push(J::Obj(vec![("t".into(), s("l")), ("v".into(), s(&l))])),
            TokenTree::Group(g) => {
                let d = match g.delimiter() {
                    Delimiter::Parenthesis => "(",
                    Delimiter::Brace => "{",
                    Delimiter::Bracket => "[",
                    Delimiter::None => "",
                };
                out.push(J::Obj(vec![("t".into(), s("g")), ("d".into(), s(d)), ("s".into(), tt_j(g.stream()))]));
            }
        }
    }
    J::Arr(out)
}

struct MatchesArgs {
    expr: syn::Expr,
    pat: syn::Pat,
    guard: Option<syn::Expr>,
}
impl syn::parse::Parse for MatchesArgs {
    fn parse(input: syn::parse::ParseStream) -> syn::Result<Self> {
        let expr: syn::Expr = input.parse()?;
        input.parse::<syn::Token![,]>()?;
        let pat = syn::Pat::parse_multi_with_leading_vert(input)?;
        let guard = if input.peek(syn::Token![if]) {
            input.parse::<syn::Token![if]>()?;
            Some(input.parse::<syn::Expr>()?)
        } else {
            None
        };
        let _ = input.parse::<Option<syn::Token![,]>>();
        Ok(MatchesArgs { expr, pat, guard })
    }
}

fn macro_j(m: &syn::Macro) -> J {
    let name = m.path.segments.last().map(|x| x.ident.to_string()).unwrap_or_default();
    let mut f = vec![("name", s(&name)), ("tokens", tt_j(m.tokens.clone()))];
    match name.as_str() {
        "matches" => {
            if let Ok(a) = syn::parse2::<MatchesArgs>(m.tokens.clone()) {
                f.push(("m_expr", expr_j(&a.expr)));
                f.push(("m_pat", pat_j(&a.pat)));
                f.push(("m_guard", a.guard.as_ref().map(expr_j).unwrap_or(J::Null)));
            }
        }
        "quote" => {}
        _ => {
            let parser = Punctuated::<syn::Expr, syn::Token![,]>::parse_terminated;
            if let Ok(p) = parser.parse2(m.tokens.clone()) {
                f.push(("args", J::Arr(p.iter().map(expr_j).collect())));
            }
        }
    }
    obj("Macro", line(m), f)
}

fn block_j(b: &syn::Block) -> J {
    obj("Block", line(b), vec![("stmts", J::Arr(b.stmts.iter().map(stmt_j).collect()))])
}

fn stmt_j(st: &syn::Stmt) -> J {
    match st {
        syn::Stmt::Local(l) => {
            let (init, els) = match &l.init {
                Some(i) => (expr_j(&i.expr), i.diverge.as_ref().map(|d| expr_j(&d.1)).unwrap_or(J::Null)),
                None => (J::Null, J::Null),
            };
            let ty = match &l.pat {
                syn::Pat::Type(t) => s(toks(&t.ty)),
                _ => J::Null,
            };
            obj("Let", line(l), vec![("pat", pat_j(&l.pat)), ("ty", ty), ("init", init), ("else", els)])
        }
        syn::Stmt::Item(i) => obj("ItemStmt", line(i), vec![("item", item_j(i))]),
        syn::Stmt::Expr(e, semi) => obj("ExprStmt", line(e), vec![("expr", expr_j(e)), ("semi", J::Bool(semi.is_some()))]),
        syn::Stmt::Macro(m) => obj("ExprStmt", line(m), vec![("expr", macro_j(&m.mac)), ("semi", J::Bool(m.semi_token.is_some()))]),
    }
}

fn lit_j(l: &syn::Lit) -> J {
    match l {
        syn::Lit::Str(x) => obj("Lit", line(l), vec![("ty", s("str")), ("v", s(x.value()))]),
        syn::Lit::Int(x) => obj("Lit", line(l), vec![("ty", s("int")), ("v", s(x.base10_digits())), ("suffix", s(x.suffix()))]),
        syn::Lit::Float(x) => obj("Lit", line(l), vec![("ty", s("float")), ("v", s(x.base10_digits())), ("suffix", s(x.suffix()))]),
        syn::Lit::Bool(x) => obj("Lit", line(l), vec![("ty", s("bool")), ("v", J::Bool(x.value))]),
        syn::Lit::Char(x) => obj("Lit", line(l), vec![("ty", s("char")), ("v", s(x.value()))]),
        other => obj("Lit", line(l), vec![("ty", s("other")), ("v", s(toks(other)))]),
    }
}

fn expr_j(e: &syn::Expr) -> J {
    use syn::Expr::*;
    let ln = line(e);
    match e {
        Path(p) => obj("Path", ln, vec![("path", path_j(&p.path)), ("qself", p.qself.as_ref().map(|q| s(toks(&q.ty))).unwrap_or(J::Null))]),
        Lit(l) => lit_j(&l.lit),
        Call(c) => obj("Call", ln, vec![("func", expr_j(&c.func)), ("args", J::Arr(c.args.iter().map(expr_j).collect()))]),
        MethodCall(m) => obj(
            "MethodCall",
            ln,
            vec![
                ("recv", expr_j(&m.receiver)),
                ("method", s(&m.method)),
                ("turbofish", m.turbofish.as_ref().map(|t| s(toks(t))).unwrap_or(J::Null)),
                ("args", J::Arr(m.args.iter().map(expr_j).collect())),
            ],
        ),
        Field(f) => obj("Field", ln, vec![("base", expr_j(&f.base)), ("member", s(toks(&f.member)))]),
        Index(i) => obj("Index", ln, vec![("base", expr_j(&i.expr)), ("index", expr_j(&i.index))]),
        Unary(u) => obj("Unary", ln, vec![("op", s(toks(&u.op))), ("expr", expr_j(&u.expr))]),
        Binary(b) => obj("Binary", ln, vec![("op", s(toks(&b.op))), ("l", expr_j(&b.left)), ("r", expr_j(&b.right))]),
        Reference(r) => obj("Ref", ln, vec![("mut", J::Bool(r.mutability.is_some())), ("expr", expr_j(&r.expr))]),
        Paren(p) => expr_j(&p.expr),
        Group(g) => expr_j(&g.expr),
        Block(b) => block_j(&b.block),
        Unsafe(b) => block_j(&b.block),
        If(i) => obj(
            "If",
            ln,
            vec![
                ("cond", expr_j(&i.cond)),
                ("then", block_j(&i.then_branch)),
                ("else", i.else_branch.as_ref().map(|(_, e)| expr_j(e)).unwrap_or(J::Null)),
            ],
        ),
        Let(l) => obj("LetCond", ln, vec![("pat", pat_j(&l.pat)), ("expr", expr_j(&l.expr))]),
        Match(m) => obj(
            "Match",
            ln,
            vec![
                ("expr", expr_j(&m.expr)),
                (
                    "arms",
                    J::Arr(
                        m.arms
                            .iter()
                            .map(|a| {
                                obj(
                                    "Arm",
                                    line(a),
                                    vec![
                                        ("pat", pat_j(&a.pat)),
                                        ("guard", a.guard.as_ref().map(|(_, g)| expr_j(g)).unwrap_or(J::Null)),
                                        ("body", expr_j(&a.body)),
                                    ],
                                )
                            })
                            .collect(),
                    ),
                ),
            ],
        ),
        Closure(c) => obj(
            "Closure",
            ln,
            vec![("params", J::Arr(c.inputs.iter().map(pat_j).collect())), ("body", expr_j(&c.body)), ("ret", s(toks(&c.output)))],
        ),
        Macro(m) => macro_j(&m.mac),
        Tuple(t) => obj("Tuple", ln, vec![("elems", J::Arr(t.elems.iter().map(expr_j).collect()))]),
        Array(a) => obj("Array", ln, vec![("elems", J::Arr(a.elems.iter().map(expr_j).collect()))]),
        Repeat(r) => obj("Repeat", ln, vec![("expr", expr_j(&r.expr)), ("len", expr_j(&r.len))]),
        Struct(st) => obj(
            "StructLit",
            ln,
            vec![
                ("path", path_j(&st.path)),
                (
                    "fields",
                    J::Arr(st.fields.iter().map(|f| J::Obj(vec![("name".into(), s(toks(&f.member))), ("expr".into(), expr_j(&f.expr))])).collect()),
                ),
                ("rest", st.rest.as_ref().map(|r| expr_j(r)).unwrap_or(J::Null)),
            ],
        ),
        Cast(c) => obj("Cast", ln, vec![("expr", expr_j(&c.expr)), ("ty", s(toks(&c.ty)))]),
        Return(r) => obj("Return", ln, vec![("expr", r.expr.as_ref().map(|e| expr_j(e)).unwrap_or(J::Null))]),
        Try(t) => obj("Try", ln, vec![("expr", expr_j(&t.expr))]),
        ForLoop(f) => obj("For", ln, vec![("pat", pat_j(&f.pat)), ("expr", expr_j(&f.expr)), ("body", block_j(&f.body))]),
        While(w) => obj("While", ln, vec![("cond", expr_j(&w.cond)), ("body", block_j(&w.body))]),
        Loop(l) => obj("Loop", ln, vec![("body", block_j(&l.body))]),
        Assign(a) => obj("Assign", ln, vec![("l", expr_j(&a.left)), ("r", expr_j(&a.right))]),
        Range(r) => obj(
            "Range",
            ln,
            vec![
                ("from", r.start.as_ref().map(|e| expr_j(e)).unwrap_or(J::Null)),
                ("to", r.end.as_ref().map(|e| expr_j(e)).unwrap_or(J::Null)),
                ("limits", s(toks(&r.limits))),
            ],
        ),
        Break(b) => obj("Break", ln, vec![("expr", b.expr.as_ref().map(|e| expr_j(e)).unwrap_or(J::Null))]),
        Continue(_) => obj("Continue", ln, vec![]),
        other => obj("Other", ln, vec![("text", s(toks(other)))]),
    }
}

fn pat_j(p: &syn::Pat) -> J {
    use syn::Pat::*;
    let ln = line(p);
    match p {
        Ident(i) => obj(
            "PIdent",
            ln,
            vec![
                ("name", s(&i.ident)),
                ("by_ref", J::Bool(i.by_ref.is_some())),
                ("mut", J::Bool(i.mutability.is_some())),
                ("sub", i.subpat.as_ref().map(|(_, sp)| pat_j(sp)).unwrap_or(J::Null)),
            ],
        ),
        Wild(_) => obj("PWild", ln, vec![]),
        Path(pp) => obj("PPath", ln, vec![("path", path_j(&pp.path))]),
        TupleStruct(t) => obj("PTupleStruct", ln, vec![("path", path_j(&t.path)), ("elems", J::Arr(t.elems.iter().map(pat_j).collect()))]),
        Struct(st) => obj(
            "PStruct",
            ln,
            vec![
                ("path", path_j(&st.path)),
                (
                    "fields",
                    J::Arr(st.fields.iter().map(|f| J::Obj(vec![("name".into(), s(toks(&f.member))), ("pat".into(), pat_j(&f.pat))])).collect()),
                ),
                ("rest", J::Bool(st.rest.is_some())),
            ],
        ),
        Tuple(t) => obj("PTuple", ln, vec![("elems", J::Arr(t.elems.iter().map(pat_j).collect()))]),
        Slice(t) => obj("PSlice", ln, vec![("elems", J::Arr(t.elems.iter().map(pat_j).collect()))]),
        Lit(l) => obj("PLit", ln, vec![("lit", lit_j(&l.lit))]),
        Or(o) => obj("POr", ln, vec![("cases", J::Arr(o.cases.iter().map(pat_j).collect()))]),
        Reference(r) => pat_j(&r.pat),
        Paren(r) => pat_j(&r.pat),
        Type(t) => pat_j(&t.pat),
        Rest(_) => obj("PRest", ln, vec![]),
        Range(r) => obj("PRange", ln, vec![("text", s(toks(r)))]),
        other => obj("POther", ln, vec![("text", s(toks(other)))]),
    }
}

fn is_cfg_test(attrs: &[syn::Attribute]) -> bool {
    attrs.iter().any(|a| a.path().is_ident("cfg") && toks(&a.meta).replace(' ', "").contains("cfg(test)"))
}

fn attrs_j(attrs: &[syn::Attribute]) -> J {
    J::Arr(attrs.iter().filter(|a| !a.path().is_ident("doc")).map(|a| s(toks(a))).collect())
}

fn use_tree(prefix: &str, t: &syn::UseTree, out: &mut Vec<J>) {
    match t {
        syn::UseTree::Path(p) => {
            let np = if prefix.is_empty() { p.ident.to_string() } else { format!("{}::{}", prefix, p.ident) };
            use_tree(&np, &p.tree, out);
        }
        syn::UseTree::Name(n) => {
            let full = if n.ident == "self" { prefix.to_string() } else if prefix.is_empty() { n.ident.to_string() } else { format!("{}::{}", prefix, n.ident) };
            let alias = if n.ident == "self" { prefix.rsplit("::").next().unwrap_or("").to_string() } else { n.ident.to_string() };
            out.push(J::Obj(vec![("alias".into(), s(alias)), ("path".into(), s(full))]));
        }
        syn::UseTree::Rename(r) => {
            let full = if prefix.is_empty() { r.ident.to_string() } else { format!("{}::{}", prefix, r.ident) };
            out.push(J::Obj(vec![("alias".into(), s(&r.rename)), ("path".into(), s(full))]));
        }
        syn::UseTree::Glob(_) => out.push(J::Obj(vec![("alias".into(), s("*")), ("path".into(), s(prefix))])),
        syn::UseTree::Group(g) => {
            for x in g.items.iter() {
                use_tree(prefix, x, out);
            }
        }
    }
}

fn sig_j(sig: &syn::Signature) -> Vec<(&'static str, J)> {
    let params: Vec<J> = sig
        .inputs
        .iter()
        .map(|a| match a {
            syn::FnArg::Receiver(r) => J::Obj(vec![("pat".into(), obj("PIdent", line(r), vec![("name", s("self")), ("by_ref", J::Bool(false)), ("mut", J::Bool(false)), ("sub", J::Null)])), ("ty".into(), s("Self"))]),
            syn::FnArg::Typed(t) => J::Obj(vec![("pat".into(), pat_j(&t.pat)), ("ty".into(), s(toks(&t.ty)))]),
        })
        .collect();
    vec![("name", s(&sig.ident)), ("params", J::Arr(params)), ("ret", s(toks(&sig.output))), ("generics", s(toks(&sig.generics)))]
}

fn item_j(i: &syn::Item) -> J {
    let ln = line(i);
    match i {
        syn::Item::Fn(f) => {
            let mut v = sig_j(&f.sig);
            v.push(("vis", s(toks(&f.vis))));
            v.push(("attrs", attrs_j(&f.attrs)));
            v.push(("cfg_test", J::Bool(is_cfg_test(&f.attrs))));
            v.push(("body", block_j(&f.block)));
            obj("Fn", ln, v)
        }
        syn::Item::Impl(im) => {
            let mut fns = Vec::new();
            for it in im.items.iter() {
                if let syn::ImplItem::Fn(f) = it {
                    let mut v = sig_j(&f.sig);
                    v.push(("vis", s(toks(&f.vis))));
                    v.push(("attrs", attrs_j(&f.attrs)));
                    v.push(("cfg_test", J::Bool(is_cfg_test(&f.attrs))));
                    v.push(("body", block_j(&f.block)));
                    fns.push(obj("Fn", line(f), v));
                }
            }
            obj(
                "Impl",
                ln,
                vec![
                    ("self_ty", s(toks(&im.self_ty))),
                    ("trait", im.trait_.as_ref().map(|(_, p, _)| s(toks(p))).unwrap_or(J::Null)),
                    ("cfg_test", J::Bool(is_cfg_test(&im.attrs))),
                    ("fns", J::Arr(fns)),
                ],
            )
        }
        syn::Item::Mod(m) => obj(
            "Mod",
            ln,
            vec![
                ("name", s(&m.ident)),
                ("cfg_test", J::Bool(is_cfg_test(&m.attrs))),
                ("vis", s(toks(&m.vis))),
                ("items", m.content.as_ref().map(|(_, its)| J::Arr(its.iter().map(item_j).collect())).unwrap_or(J::Null)),
            ],
        ),
        syn::Item::Use(u) => {
            let mut out = Vec::new();
            use_tree("", &u.tree, &mut out);
            obj("Use", ln, vec![("vis", s(toks(&u.vis))), ("uses", J::Arr(out)), ("cfg_test", J::Bool(is_cfg_test(&u.attrs)))])
        }
        syn::Item::Struct(st) => {
            let fields: Vec<J> = st
                .fields
                .iter()
                .enumerate()
                .map(|(i, f)| J::Obj(vec![("name".into(), s(f.ident.as_ref().map(|x| x.to_string()).unwrap_or_else(|| i.to_string()))), ("ty".into(), s(toks(&f.ty))), ("vis".into(), s(toks(&f.vis)))]))
                .collect();
            obj("Struct", ln, vec![("name", s(&st.ident)), ("vis", s(toks(&st.vis))), ("fields", J::Arr(fields)), ("attrs", attrs_j(&st.attrs)), ("cfg_test", J::Bool(is_cfg_test(&st.attrs)))])
        }
        syn::Item::Enum(en) => {
            let vars: Vec<J> = en
                .variants
                .iter()
                .map(|v| {
                    let fields: Vec<J> = v
                        .fields
                        .iter()
                        .enumerate()
                        .map(|(i, f)| J::Obj(vec![("name".into(), s(f.ident.as_ref().map(|x| x.to_string()).unwrap_or_else(|| i.to_string()))), ("ty".into(), s(toks(&f.ty)))]))
                        .collect();
                    let shape = match v.fields {
                        syn::Fields::Named(_) => "named",
                        syn::Fields::Unnamed(_) => "tuple",
                        syn::Fields::Unit => "unit",
                    };
                    J::Obj(vec![("name".into(), s(&v.ident)), ("shape".into(), s(shape)), ("fields".into(), J::Arr(fields)), ("cfg".into(), attrs_j(&v.attrs))])
                })
                .collect();
            obj("Enum", ln, vec![("name", s(&en.ident)), ("vis", s(toks(&en.vis))), ("variants", J::Arr(vars)), ("attrs", attrs_j(&en.attrs)), ("cfg_test", J::Bool(is_cfg_test(&en.attrs)))])
        }
        syn::Item::Const(c) => obj("Const", ln, vec![("name", s(&c.ident)), ("ty", s(toks(&c.ty))), ("expr", expr_j(&c.expr)), ("vis", s(toks(&c.vis))), ("cfg_test", J::Bool(is_cfg_test(&c.attrs)))]),
        syn::Item::Static(c) => obj("Static", ln, vec![("name", s(&c.ident)), ("ty", s(toks(&c.ty))), ("mut", J::Bool(matches!(c.mutability, syn::StaticMutability::Mut(_)))), ("expr", expr_j(&c.expr)), ("cfg_test", J::Bool(is_cfg_test(&c.attrs)))]),
        syn::Item::Macro(m) => obj("ItemMacro", ln, vec![("name", s(toks(&m.mac.path))), ("ident", m.ident.as_ref().map(|x| s(x)).unwrap_or(J::Null)), ("tokens", tt_j(m.mac.tokens.clone())), ("cfg_test", J::Bool(is_cfg_test(&m.attrs)))]),
        syn::Item::ExternCrate(e) => obj("ExternCrate", ln, vec![("name", s(&e.ident)), ("rename", e.rename.as_ref().map(|(_, r)| s(r)).unwrap_or(J::Null))]),
        syn::Item::Type(t) => obj("TypeAlias", ln, vec![("name", s(&t.ident)), ("ty", s(toks(&t.ty)))]),
        syn::Item::Trait(t) => {
            // provided (default) methods are code of the crate like any other function
            let mut fns = Vec::new();
            for it in t.items.iter() {
                if let syn::TraitItem::Fn(f) = it {
                    if let Some(block) = &f.default {
                        let mut v = sig_j(&f.sig);
                        v.push(("vis", s("")));
                        v.push(("attrs", attrs_j(&f.attrs)));
                        v.push(("cfg_test", J::Bool(is_cfg_test(&f.attrs))));
                        v.push(("body", block_j(block)));
                        fns.push(obj("Fn", line(f), v));
                    }
                }
            }
            obj("Trait", ln, vec![("name", s(&t.ident)), ("cfg_test", J::Bool(is_cfg_test(&t.attrs))), ("fns", J::Arr(fns))])
        }
        other => obj("OtherItem", ln, vec![("text", s(toks(other).chars().take(120).collect::<String>()))]),
    }
}

fn main() {
    let mut files = Vec::new();
    for p in std::env::args().skip(1) {
        let src = match std::fs::read_to_string(&p) {
            Ok(x) => x,
            Err(e) => {
                eprintln!("syndump: cannot read {}: {}", p, e);
                std::process::exit(2);
            }
        };
        let file = match syn::parse_file(&src) {
            Ok(f) => f,
            Err(e) => {
                eprintln!("syndump: cannot parse {}: {}", p, e);
                std::process::exit(3);
            }
        };
        files.push((p.clone(), J::Arr(file.items.iter().map(item_j).collect())));
    }
    let mut o = String::new();
    J::Obj(vec![("files".into(), J::Obj(files))]).write(&mut o);
    println!("{}", o);
}
