#!/bin/sh
# Build the analysis tools offline and warm the dependency caches used by the checks.
set -e
cd "$(dirname "$0")"
export CARGO_NET_OFFLINE=true
(cd tools/mirfacts && cargo build --offline 2>&1 | tail -2)
if [ -d tools/syndump ]; then (cd tools/syndump && cargo build --offline --release 2>&1 | tail -2); fi
python3 - <<'PY'
import sys
sys.path.insert(0, 'lib')
import engine_mir
engine_mir.ensure_facts()
print('mir facts ok')
PY
