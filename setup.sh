#!/bin/sh
# Build the analysis tools offline and warm the dependency caches used by the checks.
set -e
cd "$(dirname "$0")"
export CARGO_NET_OFFLINE=true
(cd tools/mirfacts && cargo build --offline 2>&1 | tail -2)
if [ -d tools/syndump ]; then (cd tools/syndump && cargo build --offline --release 2>&1 | tail -2); fi
# warm the dependency build of the skeleton crate (wgpu, bytemuck, encase, glam, serde) used by the C01 compile witness
mkdir -p .work
(cd tools/skeleton && CARGO_TARGET_DIR="$PWD/../../.work/skel-target" RUSTFLAGS=-Awarnings cargo check --offline 2>&1 | tail -1)
python3 - <<'PY'
import sys
sys.path.insert(0, 'lib')
import engine_mir
engine_mir.ensure_facts()
print('mir facts ok')
PY
